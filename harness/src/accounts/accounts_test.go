//go:build verif

// Engine `accounts` (C04, C11): drives accounts.AccountManager (RHP3 budgets) and the
// RHP4 account methods on ONE real sqlite.Store and prints, after every operation,
// what the implementation reports: manager balances, store balances through both
// protocol APIs, the account metrics, the raw funding tables, the funding API and
// the usage columns of every contract.
package accounts

import (
	"encoding/binary"
	"errors"
	"fmt"
	"sort"
	"strconv"
	"strings"
	"sync"
	"sync/atomic"
	"testing"
	"time"

	rhp3 "go.sia.tech/core/rhp/v3"
	proto4 "go.sia.tech/core/rhp/v4"
	"go.sia.tech/core/types"
	rhp4 "go.sia.tech/coreutils/rhp/v4"
	"go.sia.tech/hostd/v2/host/accounts"
	"go.sia.tech/hostd/v2/host/contracts"
	"go.sia.tech/hostd/v2/host/settings"
	"go.sia.tech/hostd/v2/index"
	"go.sia.tech/hostd/v2/internal/verifh/vhlib"
	"go.sia.tech/hostd/v2/persist/sqlite"
)

const maxAccts = 3

// failStore is the AccountStore handed to the manager: the real store, with an
// injectable failure of DebitAccount (a commit that fails in the store).
type failStore struct {
	*sqlite.Store
	failDebit bool
}

func (f *failStore) DebitAccount(id rhp3.Account, u accounts.Usage) error {
	if f.failDebit {
		return errors.New("injected store failure")
	}
	return f.Store.DebitAccount(id, u)
}

type settingsProvider struct{ maxBalance types.Currency }

func (s *settingsProvider) Settings() settings.Settings {
	return settings.Settings{MaxAccountBalance: s.maxBalance}
}

type world struct {
	t       *testing.T
	store   *sqlite.Store
	fs      *failStore
	sp      *settingsProvider
	am      *accounts.AccountManager
	keys    [maxAccts]types.PublicKey
	revs    []contracts.SignedRevision // v1 contracts
	v2      []contracts.V2Contract
	cidx1   map[types.FileContractID]int
	cidx2   map[types.FileContractID]int
	aidx    map[types.PublicKey]int
	bud     []*accounts.Budget
	budAcct map[int]int
	height  uint64
}

func seedKey(n uint64) types.PrivateKey {
	var seed [32]byte
	binary.LittleEndian.PutUint64(seed[:], n+1)
	return types.NewPrivateKeyFromSeed(seed[:])
}

func hashN(tag byte, n int) (h types.Hash256) {
	h[0] = tag
	binary.LittleEndian.PutUint64(h[8:], uint64(n)+1)
	return
}

func newWorld(t *testing.T, n1, n2 int) *world {
	st := vhlib.OpenStore(t, t.TempDir())
	w := &world{t: t, store: st, cidx1: map[types.FileContractID]int{}, cidx2: map[types.FileContractID]int{}, aidx: map[types.PublicKey]int{}, budAcct: map[int]int{}, height: 100}
	w.fs = &failStore{Store: st}
	w.sp = &settingsProvider{maxBalance: types.NewCurrency64(1000)}
	w.am = accounts.NewManager(w.fs, w.sp)
	for i := range w.keys {
		w.keys[i] = seedKey(uint64(100 + i)).PublicKey()
		w.aidx[w.keys[i]] = i
	}
	renter, host := seedKey(1).PublicKey(), seedKey(2).PublicKey()
	for i := 0; i < n1; i++ {
		rev := contracts.SignedRevision{Revision: types.FileContractRevision{
			ParentID: types.FileContractID(hashN(1, i)),
			UnlockConditions: types.UnlockConditions{PublicKeys: []types.UnlockKey{
				{Algorithm: types.SpecifierEd25519, Key: renter[:]},
				{Algorithm: types.SpecifierEd25519, Key: host[:]},
			}},
			FileContract: types.FileContract{RevisionNumber: 1, WindowStart: 1000, WindowEnd: 1100},
		}}
		if err := st.AddContract(rev, []types.Transaction{{}}, types.NewCurrency64(50), contracts.Usage{}, uint64(10+i)); err != nil {
			t.Fatal("add contract:", err)
		}
		w.revs = append(w.revs, rev)
		w.cidx1[rev.Revision.ParentID] = i
	}
	for i := 0; i < n2; i++ {
		c := contracts.V2Contract{ID: types.FileContractID(hashN(2, i)), V2FileContract: types.V2FileContract{
			RenterPublicKey: renter, HostPublicKey: host, ProofHeight: 1000, ExpirationHeight: 1100, RevisionNumber: 1,
		}, NegotiationHeight: uint64(30 + i)}
		if err := st.AddV2Contract(c, rhp4.TransactionSet{}); err != nil {
			t.Fatal("add v2 contract:", err)
		}
		w.v2 = append(w.v2, c)
		w.cidx2[c.ID] = i
	}
	return w
}

func (w *world) close() { w.store.Close() }

func cur(n uint64) types.Currency { return types.NewCurrency64(n) }

func cs(c types.Currency) string { return c.ExactString() }

// ---------------------------------------------------------------- observation

func (w *world) fundingRows(v2 bool) string {
	rows, err := w.store.VerifFundingRows(v2)
	if err != nil {
		return "[err]"
	}
	out := make([]string, 0, len(rows))
	for _, r := range rows {
		ci, ok := w.cidx1[r.ContractID]
		if v2 {
			ci, ok = w.cidx2[r.ContractID]
		}
		if !ok {
			ci = 99
		}
		ai, ok := w.aidx[r.Account]
		if !ok {
			ai = 99
		}
		out = append(out, fmt.Sprintf("%d:%d:%s", ci, ai, cs(r.Amount)))
	}
	return "[" + strings.Join(out, ",") + "]"
}

func (w *world) snap() string {
	var bal, sbal, r4bal, api []string
	for i := 0; i < maxAccts; i++ {
		b, err := w.am.Balance(rhp3.Account(w.keys[i]))
		if err != nil {
			bal = append(bal, "err")
		} else {
			bal = append(bal, cs(b))
		}
		b, err = w.store.AccountBalance(rhp3.Account(w.keys[i]))
		if err != nil {
			sbal = append(sbal, "err")
		} else {
			sbal = append(sbal, cs(b))
		}
		b, err = w.store.RHP4AccountBalance(proto4.Account(w.keys[i]))
		if err != nil {
			r4bal = append(r4bal, "err")
		} else {
			r4bal = append(r4bal, cs(b))
		}
		srcs, err := w.am.AccountFunding(rhp3.Account(w.keys[i]))
		if err != nil {
			api = append(api, "err")
		}
		for _, s := range srcs {
			ci, ok := w.cidx1[s.ContractID]
			if !ok {
				ci = 99
			}
			ai, ok := w.aidx[types.PublicKey(s.AccountID)]
			if !ok {
				ai = 99
			}
			api = append(api, fmt.Sprintf("%d:%d:%s", ci, ai, cs(s.Amount)))
		}
	}
	sort.Strings(api)
	m, err := w.store.Metrics(time.Now().Add(time.Minute))
	if err != nil {
		w.t.Fatal("metrics:", err)
	}
	n, sum, err := w.store.VerifAccountRows()
	if err != nil {
		w.t.Fatal(err)
	}
	fc1, _ := w.store.VerifFundingRowCount(false)
	fc2, _ := w.store.VerifFundingRowCount(true)
	var u1, u1api, u2, u2api, st1, st2 []string
	for _, rev := range w.revs {
		u, err := w.store.VerifContractUsageColumns(false, rev.Revision.ParentID)
		if err != nil {
			w.t.Fatal(err)
		}
		u1 = append(u1, fmt.Sprintf("%s:%s:%s:%s:%s:%s:%s:%s", cs(u.RPC), cs(u.Storage), cs(u.Egress), cs(u.Ingress), cs(u.RegistryRead), cs(u.RegistryWrite), cs(u.AccountFunding), cs(u.RiskedCollateral)))
		st1 = append(st1, u.Status)
		c, err := w.store.Contract(rev.Revision.ParentID)
		if err != nil {
			u1api = append(u1api, "err")
		} else {
			a := c.Usage
			u1api = append(u1api, fmt.Sprintf("%s:%s:%s:%s:%s:%s:%s:%s", cs(a.RPCRevenue), cs(a.StorageRevenue), cs(a.EgressRevenue), cs(a.IngressRevenue), cs(a.RegistryRead), cs(a.RegistryWrite), cs(a.AccountFunding), cs(a.RiskedCollateral)))
		}
	}
	for _, c := range w.v2 {
		u, err := w.store.VerifContractUsageColumns(true, c.ID)
		if err != nil {
			w.t.Fatal(err)
		}
		u2 = append(u2, fmt.Sprintf("%s:%s:%s:%s:0:0:%s:%s", cs(u.RPC), cs(u.Storage), cs(u.Egress), cs(u.Ingress), cs(u.AccountFunding), cs(u.RiskedCollateral)))
		st2 = append(st2, u.Status)
		vc, err := w.store.V2Contract(c.ID)
		if err != nil {
			u2api = append(u2api, "err")
		} else {
			a := vc.Usage
			u2api = append(u2api, fmt.Sprintf("%s:%s:%s:%s:0:0:%s:%s", cs(a.RPC), cs(a.Storage), cs(a.Egress), cs(a.Ingress), cs(a.AccountFunding), cs(a.RiskedCollateral)))
		}
	}
	l := func(x []string) string { return "[" + strings.Join(x, ",") + "]" }
	// the exported account listing must stay readable and agree with the row count
	alist := "err"
	if accs, err := w.store.Accounts(1000, 0); err == nil {
		alist = fmt.Sprint(len(accs))
	}
	return fmt.Sprintf("alist=%s bal=%s sbal=%s r4bal=%s mbal=%s mact=%d naccts=%d ssum=%s f1=%s f2=%s fc1=%d fc2=%d af1=%s u1=%s u1api=%s u2=%s u2api=%s st1=%s st2=%s",
		alist, l(bal), l(sbal), l(r4bal), cs(m.Accounts.Balance), m.Accounts.Active, n, cs(sum), w.fundingRows(false), w.fundingRows(true), fc1, fc2,
		l(api), l(u1), l(u1api), l(u2), l(u2api), l(st1), l(st2))
}

// ---------------------------------------------------------------- operations (data → effect)

type usage6 [6]uint64 // rhp3: rpc storage egress ingress registryRead registryWrite; rhp4: rpc storage egress ingress accountFunding riskedCollateral

func (u usage6) String() string {
	return fmt.Sprintf("[%d,%d,%d,%d,%d,%d]", u[0], u[1], u[2], u[3], u[4], u[5])
}

func (u usage6) v3() accounts.Usage {
	return accounts.Usage{RPCRevenue: cur(u[0]), StorageRevenue: cur(u[1]), EgressRevenue: cur(u[2]), IngressRevenue: cur(u[3]), RegistryRead: cur(u[4]), RegistryWrite: cur(u[5])}
}

func (u usage6) v4() proto4.Usage {
	return proto4.Usage{RPC: cur(u[0]), Storage: cur(u[1]), Egress: cur(u[2]), Ingress: cur(u[3]), AccountFunding: cur(u[4]), RiskedCollateral: cur(u[5])}
}

func (u usage6) total3() (t uint64) {
	for _, v := range u {
		t += v
	}
	return
}

func parseUsage(xs []uint64) (u usage6) {
	copy(u[:], xs)
	return
}

func (w *world) emit(tr *vhlib.Trace, op, res string) {
	tr.Count(strings.SplitN(op, " ", 2)[0] + ":" + strings.SplitN(res, " ", 2)[0])
	tr.Line(op, res+" "+w.snap())
}

func (w *world) doCredit(tr *vhlib.Trace, a, c int, amt, cost uint64, refund bool, maxbal uint64) {
	op := fmt.Sprintf("credit a=%d c=%d amt=%d cost=%d refund=%d maxbal=%d", a, c, amt, cost, vhlib.B01(refund), maxbal)
	w.sp.maxBalance = cur(maxbal)
	var rev contracts.SignedRevision
	if c >= 0 && c < len(w.revs) {
		w.revs[c].Revision.RevisionNumber++
		rev = w.revs[c]
	} else {
		// a contract the store does not know
		rev = contracts.SignedRevision{Revision: types.FileContractRevision{ParentID: types.FileContractID(hashN(9, c))}}
	}
	var nb types.Currency
	var err error
	panicked, msg := vhlib.Try(func() {
		nb, err = w.am.Credit(accounts.FundAccountWithContract{
			Account: rhp3.Account(w.keys[a]), Cost: cur(cost), Amount: cur(amt), Revision: rev, Expiration: time.Now().Add(time.Hour),
		}, refund)
	})
	res := "res=ok"
	switch {
	case panicked:
		res = "res=panic:" + msg
	case err == nil:
	case errors.Is(err, accounts.ErrBalanceExceeded):
		res = "res=exceeded"
	default:
		res = "res=err"
	}
	w.emit(tr, op, res+" ret="+cs(nb))
}

func (w *world) doBudget(tr *vhlib.Trace, a int, amt uint64) {
	op := fmt.Sprintf("budget a=%d amt=%d", a, amt)
	var b *accounts.Budget
	var err error
	panicked, msg := vhlib.Try(func() { b, err = w.am.Budget(rhp3.Account(w.keys[a]), cur(amt)) })
	res := "res=ok"
	switch {
	case panicked:
		res = "res=panic:" + msg
	case err == nil:
		w.budAcct[len(w.bud)] = a
		w.bud = append(w.bud, b)
	case errors.Is(err, accounts.ErrInsufficientFunds):
		res = "res=insufficient"
	default:
		res = "res=err"
	}
	w.emit(tr, op, fmt.Sprintf("%s nbud=%d", res, len(w.bud)))
}

func (w *world) budgetAt(i int) *accounts.Budget {
	if i < 0 || i >= len(w.bud) {
		return nil
	}
	return w.bud[i]
}

func (w *world) doSpend(tr *vhlib.Trace, i int, u usage6) {
	op := fmt.Sprintf("spend b=%d u=%s", i, u)
	b := w.budgetAt(i)
	if b == nil {
		w.emit(tr, op, "res=nobudget")
		return
	}
	var err error
	panicked, msg := vhlib.Try(func() { err = b.Spend(u.v3()) })
	res := "res=ok"
	switch {
	case panicked:
		res = "res=panic:" + msg
	case err == nil:
	case errors.Is(err, accounts.ErrInsufficientFunds):
		res = "res=insufficient"
	default:
		res = "res=err"
	}
	w.emit(tr, op, res+" remaining="+remaining(b))
}

func remaining(b *accounts.Budget) (s string) {
	if p, _ := vhlib.Try(func() { s = cs(b.Remaining()) }); p {
		return "panic"
	}
	return
}

func (w *world) doRefund(tr *vhlib.Trace, i int, u usage6) {
	op := fmt.Sprintf("refund b=%d u=%s", i, u)
	b := w.budgetAt(i)
	if b == nil {
		w.emit(tr, op, "res=nobudget")
		return
	}
	panicked, _ := vhlib.Try(func() { b.Refund(u.v3()) })
	res := "res=ok"
	if panicked {
		res = "res=panic" // documented: refund of a committed budget or of more than was spent panics
	}
	w.emit(tr, op, res+" remaining="+remaining(b))
}

// srcStatuses counts, for the evidence, the status of every contract that currently funds account a.
func (w *world) srcStatuses(tr *vhlib.Trace, a int, v2 bool) {
	rows, err := w.store.VerifFundingRows(v2)
	if err != nil {
		return
	}
	for _, r := range rows {
		if r.Account != w.keys[a] || r.Amount.IsZero() {
			continue
		}
		u, err := w.store.VerifContractUsageColumns(v2, r.ContractID)
		if err != nil {
			continue
		}
		if v2 {
			tr.Count("debit_source_status_v2:" + u.Status)
		} else {
			tr.Count("debit_source_status_v1:" + u.Status)
		}
	}
}

func (w *world) doCommit(tr *vhlib.Trace, i int, fail bool) {
	op := fmt.Sprintf("commit b=%d fail=%d", i, vhlib.B01(fail))
	b := w.budgetAt(i)
	if b == nil {
		w.emit(tr, op, "res=nobudget")
		return
	}
	w.fs.failDebit = fail
	if !fail {
		if ai, ok := w.budAcct[i]; ok {
			w.srcStatuses(tr, ai, false)
		}
	}
	var err error
	panicked, msg := vhlib.Try(func() { err = b.Commit() })
	w.fs.failDebit = false
	res := "res=ok"
	switch {
	case panicked:
		res = "res=panic:" + msg
	case err == nil:
	case strings.Contains(err.Error(), "insufficient balance"):
		res = "res=err why=insufficient"
	case strings.Contains(err.Error(), "injected"):
		res = "res=err why=injected"
	default:
		res = "res=err why=other"
	}
	w.emit(tr, op, res)
}

func (w *world) doRollback(tr *vhlib.Trace, i int) {
	op := fmt.Sprintf("rollback b=%d", i)
	b := w.budgetAt(i)
	if b == nil {
		w.emit(tr, op, "res=nobudget")
		return
	}
	var err error
	panicked, msg := vhlib.Try(func() { err = b.Rollback() })
	res := "res=ok"
	switch {
	case panicked:
		res = "res=panic:" + msg
	case err != nil:
		res = "res=err"
	}
	w.emit(tr, op, res)
}

// doPar lets k goroutines reserve amt on the same account at the same time and, after a
// barrier, lets every granted budget spend u and commit (or roll back) at the same time.
// The outcome counts do not depend on the schedule if (and only if) the manager serialises
// the operations; the driver replays the round as one sequential order.
func (w *world) doPar(tr *vhlib.Trace, a, k int, amt uint64, u usage6, commit bool) (stillOpen int) {
	op := fmt.Sprintf("par a=%d k=%d amt=%d u=%s commit=%d", a, k, amt, u, vhlib.B01(commit))
	if k < 0 || k > 8 {
		k = 0
	}
	buds := make([]*accounts.Budget, k)
	var panics int64
	run := func(n int, fn func(j int)) {
		var wg sync.WaitGroup
		start := make(chan struct{})
		for j := 0; j < n; j++ {
			wg.Add(1)
			go func(j int) {
				defer wg.Done()
				defer func() {
					if r := recover(); r != nil {
						atomic.AddInt64(&panics, 1)
					}
				}()
				<-start
				fn(j)
			}(j)
		}
		close(start)
		wg.Wait()
	}
	run(k, func(j int) {
		b, err := w.am.Budget(rhp3.Account(w.keys[a]), cur(amt))
		if err == nil {
			buds[j] = b
		}
	})
	var granted []*accounts.Budget
	for _, b := range buds {
		if b != nil {
			granted = append(granted, b)
		}
	}
	var spent, cerr int64
	failed := make([]bool, len(granted))
	run(len(granted), func(j int) {
		b := granted[j]
		if err := b.Spend(u.v3()); err == nil {
			atomic.AddInt64(&spent, 1)
		}
		if commit {
			if err := b.Commit(); err != nil {
				atomic.AddInt64(&cerr, 1)
				failed[j] = true
			}
		} else if err := b.Rollback(); err != nil {
			atomic.AddInt64(&cerr, 1)
			failed[j] = true
		}
	})
	// the budgets are interchangeable (same account, maximum and spending); which of them a
	// refusing store hit depends on the schedule, so they are numbered closed ones first
	for pass := 0; pass < 2; pass++ {
		for j, b := range granted {
			if failed[j] == (pass == 1) {
				w.budAcct[len(w.bud)] = a
				w.bud = append(w.bud, b)
			}
		}
	}
	stillOpen = int(cerr)
	res := "res=ok"
	if panics > 0 {
		res = fmt.Sprintf("res=panic:%d_goroutines", panics)
	}
	w.emit(tr, op, fmt.Sprintf("%s granted=%d spent=%d cerr=%d nbud=%d", res, len(granted), spent, cerr, len(w.bud)))
	return
}

type dep struct {
	a   int
	amt uint64
}

func (w *world) doRHP4Credit(tr *vhlib.Trace, c int, deps []dep, u usage6) {
	ds := make([]string, len(deps))
	var pd []proto4.AccountDeposit
	for i, d := range deps {
		ds[i] = fmt.Sprintf("%d:%d", d.a, d.amt)
		pd = append(pd, proto4.AccountDeposit{Account: proto4.Account(w.keys[d.a]), Amount: cur(d.amt)})
	}
	op := fmt.Sprintf("rhp4credit c=%d deps=[%s] u=%s", c, strings.Join(ds, ","), u)
	var id types.FileContractID
	var fc types.V2FileContract
	if c >= 0 && c < len(w.v2) {
		w.v2[c].V2FileContract.RevisionNumber++
		id, fc = w.v2[c].ID, w.v2[c].V2FileContract
	} else {
		id = types.FileContractID(hashN(8, c))
	}
	var bals []types.Currency
	var err error
	panicked, msg := vhlib.Try(func() { bals, err = w.store.RHP4CreditAccounts(pd, id, fc, u.v4()) })
	res := "res=ok"
	switch {
	case panicked:
		res = "res=panic:" + msg
	case err != nil:
		res = "res=err"
		bals = nil
	}
	bs := make([]string, len(bals))
	for i, b := range bals {
		bs[i] = cs(b)
	}
	w.emit(tr, op, fmt.Sprintf("%s ret=[%s]", res, strings.Join(bs, ",")))
}

func (w *world) doRHP4Debit(tr *vhlib.Trace, a int, u usage6) {
	op := fmt.Sprintf("rhp4debit a=%d u=%s", a, u)
	w.srcStatuses(tr, a, true)
	var err error
	panicked, msg := vhlib.Try(func() { err = w.store.RHP4DebitAccount(proto4.Account(w.keys[a]), u.v4()) })
	res := "res=ok"
	switch {
	case panicked:
		res = "res=panic:" + msg
	case err == nil:
	case errors.Is(err, proto4.ErrNotEnoughFunds):
		res = "res=insufficient"
	default:
		res = "res=err"
	}
	w.emit(tr, op, res)
}

// doStatus moves a contract through the consensus code path; the ledger does not depend
// on the status (the model ignores this op), it only makes sure debits are exercised
// against sources in every status.
func (w *world) doStatus(tr *vhlib.Trace, v, c int, to string) {
	op := fmt.Sprintf("status v=%d c=%d to=%s", v, c, to)
	w.height++
	idx := types.ChainIndex{Height: w.height, ID: types.BlockID(hashN(7, int(w.height)))}
	var err error
	panicked, msg := vhlib.Try(func() {
		err = w.store.UpdateChainState(func(tx index.UpdateTx) error {
			var sc contracts.StateChanges
			if v == 1 {
				if c < 0 || c >= len(w.revs) {
					return errors.New("no such contract")
				}
				id := w.revs[c].Revision.ParentID
				switch to {
				case "active":
					sc.Confirmed = []types.FileContractElement{{ID: id, FileContract: w.revs[c].Revision.FileContract}}
				case "successful":
					sc.Successful = []types.FileContractID{id}
				case "failed":
					sc.Failed = []types.FileContractID{id}
				case "rejected":
					_, _, err := tx.RejectContracts(uint64(10 + c + 1))
					return err
				}
			} else {
				if c < 0 || c >= len(w.v2) {
					return errors.New("no such contract")
				}
				id := w.v2[c].ID
				switch to {
				case "active":
					sc.ConfirmedV2 = []types.V2FileContractElement{{ID: id, V2FileContract: w.v2[c].V2FileContract}}
				case "successful":
					sc.SuccessfulV2 = []types.FileContractID{id}
				case "renewed":
					sc.RenewedV2 = []types.FileContractID{id}
				case "failed":
					sc.FailedV2 = []types.FileContractID{id}
				case "rejected":
					_, _, err := tx.RejectContracts(uint64(30 + c + 1))
					return err
				}
			}
			return tx.ApplyContracts(idx, sc)
		})
	})
	res := "res=ok"
	switch {
	case panicked:
		res = "res=panic:" + msg
	case err != nil:
		res = "res=err"
	}
	w.emit(tr, op, res)
}

// ---------------------------------------------------------------- generator

type gen struct {
	w      *world
	r      *vhlib.Rand
	tr     *vhlib.Trace
	nA     int
	n1     int
	n2     int
	mode   string
	open   map[int]bool // budgets the generator believes open
	bacct  map[int]int
	bmax   map[int]uint64
	bspent map[int]uint64
	bused  map[int]usage6
	st1    []string
	st2    []string
}

func (g *gen) small() uint64 {
	switch g.r.Intn(10) {
	case 0:
		return 0
	case 1:
		return uint64(10 + g.r.Intn(15))
	default:
		return uint64(1 + g.r.Intn(8))
	}
}

// usage with the given total spread over a random subset of the categories in cats
func (g *gen) usage(total uint64, cats []int) (u usage6) {
	if total == 0 {
		return
	}
	k := 1 + g.r.Intn(len(cats))
	for total > 0 {
		c := cats[g.r.Intn(k)]
		v := uint64(1 + g.r.Intn(int(total)))
		if g.r.Chance(1, 3) {
			v = total
		}
		u[c] += v
		total -= v
	}
	return
}

func (g *gen) shuffledCats(n int) []int {
	cats := make([]int, n)
	for i := range cats {
		cats[i] = i
	}
	for i := n - 1; i > 0; i-- {
		j := g.r.Intn(i + 1)
		cats[i], cats[j] = cats[j], cats[i]
	}
	return cats
}

func (g *gen) storeBal(a int) uint64 {
	b, _ := g.w.store.AccountBalance(rhp3.Account(g.w.keys[a]))
	return b.Lo
}

func (g *gen) mgrBal(a int) uint64 {
	b, _ := g.w.am.Balance(rhp3.Account(g.w.keys[a]))
	return b.Lo
}

// a total that exactly exhausts a funding row, all rows of the account, or the balance
func (g *gen) interestingTotal(a int, v2 bool, fallback uint64) uint64 {
	rows, _ := g.w.store.VerifFundingRows(v2)
	var mine []uint64
	var sum uint64
	for _, r := range rows {
		if r.Account == g.w.keys[a] {
			mine = append(mine, r.Amount.Lo)
			sum += r.Amount.Lo
		}
	}
	switch g.r.Intn(6) {
	case 0:
		if len(mine) > 0 {
			return mine[0]
		}
	case 1:
		if len(mine) > 1 {
			return mine[0] + mine[1]
		}
	case 2:
		return sum
	case 3:
		if len(mine) > 0 {
			return mine[0] + 1
		}
	case 4:
		return g.storeBal(a)
	}
	return fallback
}

func (g *gen) pickBudget(wantOpen bool) int {
	n := len(g.w.bud)
	if n == 0 {
		return 0
	}
	if wantOpen {
		var os []int
		for i := range g.w.bud {
			if g.open[i] {
				os = append(os, i)
			}
		}
		if len(os) > 0 {
			return os[g.r.Intn(len(os))]
		}
	}
	return g.r.Intn(n)
}

func (g *gen) nOpen(a int) (n int) {
	for i, o := range g.open {
		if o && g.bacct[i] == a {
			n++
		}
	}
	return
}

func (g *gen) step() {
	r, w := g.r, g.w
	a := r.Intn(g.nA)
	use3 := g.mode != "pure4"
	use4 := g.mode != "pure3" && g.n2 > 0
	// weighted choice among the operation kinds the mode allows
	type wk struct {
		k string
		w int
	}
	var tbl []wk
	if use3 {
		tbl = append(tbl, wk{"credit", 20}, wk{"budget", 14}, wk{"spend", 16}, wk{"refund", 5}, wk{"commit", 12}, wk{"rollback", 7}, wk{"par", 4})
	}
	if use4 {
		tbl = append(tbl, wk{"rhp4credit", 10}, wk{"rhp4debit", 12})
	}
	tbl = append(tbl, wk{"status", 4})
	tot := 0
	for _, e := range tbl {
		tot += e.w
	}
	x := r.Intn(tot)
	kind := ""
	for _, e := range tbl {
		if x < e.w {
			kind = e.k
			break
		}
		x -= e.w
	}
	switch kind {
	case "credit":
		c := r.Intn(g.n1)
		if r.Chance(1, 40) {
			c = g.n1 + 2
		}
		maxbal := vhlib.Pick[uint64](r, 8, 15, 30, 1000)
		amt := g.small()
		if r.Chance(1, 6) { // hit the cap exactly / by one
			if mb := g.mgrBal(a); mb <= maxbal {
				amt = maxbal - mb + uint64(r.Intn(2))
			}
		}
		w.doCredit(g.tr, a, c, amt, uint64(r.Intn(3)), r.Chance(1, 4), maxbal)
	case "budget":
		if g.nOpen(a) >= 4 {
			i := g.pickBudget(true)
			w.doRollback(g.tr, i)
			g.open[i] = false
			return
		}
		mb := g.mgrBal(a)
		var amt uint64
		switch r.Intn(6) {
		case 0:
			amt = mb
		case 1:
			amt = mb + 1
		case 2:
			amt = 0
		default:
			if mb > 0 {
				amt = uint64(1 + r.Intn(int(mb)))
			} else {
				amt = g.small()
			}
		}
		before := len(w.bud)
		w.doBudget(g.tr, a, amt)
		if len(w.bud) > before {
			g.open[before], g.bacct[before], g.bmax[before], g.bspent[before] = true, a, amt, 0
		}
	case "spend":
		if len(w.bud) == 0 {
			return
		}
		i := g.pickBudget(r.Chance(9, 10))
		rem := g.bmax[i] - g.bspent[i]
		var total uint64
		switch r.Intn(5) {
		case 0:
			total = rem
		case 1:
			total = rem + 1
		default:
			if rem > 0 {
				total = uint64(1 + r.Intn(int(rem)))
			}
		}
		if r.Chance(1, 3) {
			total = g.interestingTotal(g.bacct[i], false, total)
		}
		ncat := 6
		if r.Chance(1, 2) {
			ncat = 4 // no registry categories
		}
		u := g.usage(total, g.shuffledCats(ncat))
		w.doSpend(g.tr, i, u)
		if g.bspent[i]+u.total3() <= g.bmax[i] {
			g.bspent[i] += u.total3()
			used := g.bused[i]
			for c := range u {
				used[c] += u[c]
			}
			g.bused[i] = used
		}
	case "refund":
		if len(w.bud) == 0 {
			return
		}
		i := g.pickBudget(r.Chance(9, 10))
		// mostly a part of what was spent per category (valid), sometimes more (documented panic)
		var u usage6
		used := g.bused[i]
		for c := range u {
			if used[c] > 0 && r.Chance(2, 3) {
				u[c] = uint64(1 + r.Intn(int(used[c])))
			}
		}
		if r.Chance(1, 6) {
			u[r.Intn(6)] += uint64(1 + r.Intn(3))
		}
		ok := g.open[i]
		for c := range u {
			if u[c] > used[c] {
				ok = false
			}
		}
		w.doRefund(g.tr, i, u)
		if ok {
			for c := range u {
				used[c] -= u[c]
			}
			g.bused[i] = used
			g.bspent[i] -= u.total3()
		}
	case "commit":
		if len(w.bud) == 0 {
			return
		}
		i := g.pickBudget(r.Chance(9, 10))
		fail := r.Chance(1, 5)
		w.doCommit(g.tr, i, fail)
		if !fail {
			// believed closed (a real store failure keeps it open; only affects the choice of later ops)
			g.open[i] = false
		}
	case "rollback":
		if len(w.bud) == 0 {
			return
		}
		i := g.pickBudget(r.Chance(9, 10))
		w.doRollback(g.tr, i)
		g.open[i] = false
	case "par":
		k := 2 + r.Intn(3)
		mb := g.mgrBal(a)
		var amt uint64
		switch r.Intn(5) {
		case 0:
			amt = mb / uint64(k)
		case 1:
			amt = mb/uint64(k) + 1
		case 2:
			amt = mb/2 + 1
		case 3:
			amt = mb
		default:
			amt = g.small()
		}
		var total uint64
		if amt > 0 {
			total = uint64(r.Intn(int(amt) + 1))
		}
		if r.Chance(1, 8) {
			total = amt + 1
		}
		before := len(w.bud)
		pu := g.usage(total, g.shuffledCats(6))
		stillOpen := w.doPar(g.tr, a, k, amt, pu, r.Chance(2, 3))
		for i := before; i < len(w.bud); i++ {
			g.open[i], g.bacct[i], g.bmax[i] = i >= len(w.bud)-stillOpen, a, amt
			if pu.total3() <= amt {
				g.bspent[i], g.bused[i] = pu.total3(), pu
			}
		}
	case "rhp4credit":
		c := r.Intn(g.n2)
		if r.Chance(1, 40) {
			c = g.n2 + 2
		}
		nd := 1 + r.Intn(3)
		if r.Chance(1, 20) {
			nd = 0
		}
		var deps []dep
		var sum uint64
		for i := 0; i < nd; i++ {
			d := dep{a: r.Intn(g.nA), amt: g.small()}
			deps = append(deps, d)
			sum += d.amt
		}
		w.doRHP4Credit(g.tr, c, deps, usage6{0, 0, 0, 0, sum, 0})
	case "rhp4debit":
		sb := g.storeBal(a)
		var total uint64
		switch r.Intn(6) {
		case 0:
			total = sb
		case 1:
			total = sb + 1
		case 2:
			total = 0
		default:
			if sb > 0 {
				total = uint64(1 + r.Intn(int(sb)))
			}
		}
		if r.Chance(1, 3) {
			total = g.interestingTotal(a, true, total)
		}
		u := g.usage(total, g.shuffledCats(4))
		if r.Chance(1, 4) {
			u[5] = uint64(r.Intn(5)) // risked collateral: not a cost
		}
		if r.Chance(1, 25) {
			u[4] = uint64(1 + r.Intn(3)) // account funding inside a debit: not produced by any RPC, costs but is not attributed
		}
		w.doRHP4Debit(g.tr, a, u)
	default: // status
		v := 1
		if use4 && (!use3 || r.Chance(1, 2)) {
			v = 2
		}
		var c int
		var cur *string
		if v == 1 {
			c = r.Intn(g.n1)
			cur = &g.st1[c]
		} else {
			c = r.Intn(g.n2)
			cur = &g.st2[c]
		}
		var to string
		switch *cur {
		case "pending":
			to = vhlib.Pick(r, "active", "active", "active", "rejected")
		case "rejected":
			to = "active"
		case "active":
			to = vhlib.Pick(r, "successful", "failed")
			if v == 2 && r.Chance(1, 3) {
				to = "renewed"
			}
		default:
			return // resolved contracts stay
		}
		w.doStatus(g.tr, v, c, to)
		*cur = to
	}
}

func genHistory(t *testing.T, tr *vhlib.Trace, r *vhlib.Rand, n int) {
	g := &gen{r: r, tr: tr, open: map[int]bool{}, bacct: map[int]int{}, bmax: map[int]uint64{}, bspent: map[int]uint64{}, bused: map[int]usage6{}}
	g.nA = 1 + r.Intn(maxAccts)
	g.n1 = 1 + r.Intn(4)
	g.n2 = r.Intn(4)
	g.mode = vhlib.Pick(r, "pure3", "pure3", "pure4", "mixed", "mixed", "mixed")
	if g.mode != "pure3" && g.n2 == 0 {
		g.n2 = 1 + r.Intn(3)
	}
	g.w = newWorld(t, g.n1, g.n2)
	defer g.w.close()
	for i := 0; i < g.n1; i++ {
		g.st1 = append(g.st1, "pending")
	}
	for i := 0; i < g.n2; i++ {
		g.st2 = append(g.st2, "pending")
	}
	tr.Count("mode:" + g.mode)
	tr.Line(fmt.Sprintf("reset n1=%d n2=%d", g.n1, g.n2), g.w.snap())
	for i := 0; i < n; i++ {
		g.step()
	}
}

// ---------------------------------------------------------------- replay

func parseDeps(items []string) (out []dep) {
	for _, it := range items {
		p := strings.SplitN(it, ":", 2)
		if len(p) != 2 {
			continue
		}
		a, _ := strconv.Atoi(p[0])
		amt, _ := strconv.ParseUint(p[1], 10, 64)
		out = append(out, dep{a: a, amt: amt})
	}
	return
}

func clampA(a int) int {
	if a < 0 || a >= maxAccts {
		return 0
	}
	return a
}

func replay(t *testing.T, tr *vhlib.Trace, ops []vhlib.ParsedLine) {
	var w *world
	defer func() {
		if w != nil {
			w.close()
		}
	}()
	for _, op := range ops {
		if op.Op == "reset" {
			if w != nil {
				w.close()
			}
			w = newWorld(t, op.Int("n1"), op.Int("n2"))
			tr.Line(op.Raw, w.snap())
			continue
		}
		if w == nil {
			continue
		}
		switch op.Op {
		case "credit":
			w.doCredit(tr, clampA(op.Int("a")), op.Int("c"), op.U64("amt"), op.U64("cost"), op.U64("refund") == 1, op.U64("maxbal"))
		case "budget":
			w.doBudget(tr, clampA(op.Int("a")), op.U64("amt"))
		case "spend":
			w.doSpend(tr, op.Int("b"), parseUsage(op.U64List("u")))
		case "refund":
			w.doRefund(tr, op.Int("b"), parseUsage(op.U64List("u")))
		case "commit":
			w.doCommit(tr, op.Int("b"), op.U64("fail") == 1)
		case "rollback":
			w.doRollback(tr, op.Int("b"))
		case "par":
			w.doPar(tr, clampA(op.Int("a")), op.Int("k"), op.U64("amt"), parseUsage(op.U64List("u")), op.U64("commit") == 1)
		case "rhp4credit":
			deps := parseDeps(op.List("deps"))
			for i := range deps {
				deps[i].a = clampA(deps[i].a)
			}
			w.doRHP4Credit(tr, op.Int("c"), deps, parseUsage(op.U64List("u")))
		case "rhp4debit":
			w.doRHP4Debit(tr, clampA(op.Int("a")), parseUsage(op.U64List("u")))
		case "status":
			w.doStatus(tr, op.Int("v"), op.Int("c"), op.Args["to"])
		}
	}
}

func TestEngine(t *testing.T) {
	cfg := vhlib.LoadConfig()
	tr, err := vhlib.NewTrace(cfg.Out)
	if err != nil {
		t.Fatal(err)
	}
	defer tr.Close()
	if cfg.Replay != "" {
		ops, err := vhlib.ParseOps(cfg.Replay)
		if err != nil {
			t.Fatal(err)
		}
		replay(t, tr, ops)
		return
	}
	r := vhlib.NewRand(cfg.Seed)
	for i := 0; i < cfg.N; i++ {
		genHistory(t, tr, r, cfg.Len)
	}
}
